// Package hk is the small kit shared by every property driver of the conformance harness:
// registry, ndjson I/O, result records, kind projection.
package hk

import (
	"bufio"
	"encoding/json"
	"flag"
	"fmt"
	"io"
	"os"
	"sort"
	"sync"

	"github.com/ARM-software/golang-utils/utils/commonerrors"
)

// Args are the common command line arguments of a driver mode.
type Args struct {
	In    string // behaviours / scenario file (ndjson)
	Out   string // results or trace file (ndjson)
	Seed  int64
	Tier  string
	N     int
	Dir   string // scratch directory the driver may use freely
	Extra map[string]string
}

type ModeFunc func(a *Args) error

var registry = map[string]map[string]ModeFunc{}

// Register makes mode `mode` of property `prop` available as `vh <prop> <mode> ...`.
func Register(prop, mode string, f ModeFunc) {
	if registry[prop] == nil {
		registry[prop] = map[string]ModeFunc{}
	}
	registry[prop][mode] = f
}

func Main() {
	if len(os.Args) < 3 {
		var names []string
		for p, ms := range registry {
			for m := range ms {
				names = append(names, p+" "+m)
			}
		}
		sort.Strings(names)
		fmt.Fprintln(os.Stderr, "usage: vh <prop> <mode> [--in f] [--out f] [--seed n] [--tier t] [--n n] [--dir d]\nmodes:", names)
		os.Exit(2)
	}
	prop, mode := os.Args[1], os.Args[2]
	f := registry[prop][mode]
	if f == nil {
		fmt.Fprintf(os.Stderr, "unknown driver %s %s\n", prop, mode)
		os.Exit(2)
	}
	fs := flag.NewFlagSet("vh", flag.ExitOnError)
	a := &Args{Extra: map[string]string{}}
	fs.StringVar(&a.In, "in", "", "input ndjson")
	fs.StringVar(&a.Out, "out", "", "output ndjson")
	fs.Int64Var(&a.Seed, "seed", 1, "seed")
	fs.StringVar(&a.Tier, "tier", "quick", "tier")
	fs.IntVar(&a.N, "n", 0, "size parameter")
	fs.StringVar(&a.Dir, "dir", "", "scratch dir")
	var extra multi
	fs.Var(&extra, "x", "extra key=value")
	_ = fs.Parse(os.Args[3:])
	for _, kv := range extra {
		for i := 0; i < len(kv); i++ {
			if kv[i] == '=' {
				a.Extra[kv[:i]] = kv[i+1:]
				break
			}
		}
	}
	if err := f(a); err != nil {
		fmt.Fprintln(os.Stderr, "driver error:", err)
		os.Exit(2)
	}
}

type multi []string

func (m *multi) String() string     { return fmt.Sprint(*m) }
func (m *multi) Set(s string) error { *m = append(*m, s); return nil }

// ReadNDJSON decodes every line of path into a fresh T.
func ReadNDJSON[T any](path string) ([]T, error) {
	f, err := os.Open(path)
	if err != nil {
		return nil, err
	}
	defer f.Close()
	var out []T
	r := bufio.NewReaderSize(f, 1<<20)
	for {
		line, err := r.ReadBytes('\n')
		if len(line) > 1 {
			var v T
			if e := json.Unmarshal(line, &v); e != nil {
				return nil, fmt.Errorf("bad ndjson line %q: %w", string(line[:min(len(line), 200)]), e)
			}
			out = append(out, v)
		}
		if err == io.EOF {
			break
		}
		if err != nil {
			return nil, err
		}
	}
	return out, nil
}

// Writer is a goroutine-safe ndjson writer.
type Writer struct {
	mu sync.Mutex
	f  *os.File
	w  *bufio.Writer
	n  int
}

func NewWriter(path string) (*Writer, error) {
	f, err := os.Create(path)
	if err != nil {
		return nil, err
	}
	return &Writer{f: f, w: bufio.NewWriterSize(f, 1<<20)}, nil
}

func (w *Writer) Write(v any) {
	b, err := json.Marshal(v)
	if err != nil {
		panic(err)
	}
	w.mu.Lock()
	w.w.Write(b)
	w.w.WriteByte('\n')
	w.n++
	w.mu.Unlock()
}

// Flush pushes buffered lines to the file (drivers call it after each scenario so that a watchdog kill loses nothing).
func (w *Writer) Flush() {
	w.mu.Lock()
	_ = w.w.Flush()
	w.mu.Unlock()
}

func (w *Writer) Count() int { w.mu.Lock(); defer w.mu.Unlock(); return w.n }

func (w *Writer) Close() error {
	w.mu.Lock()
	defer w.mu.Unlock()
	if err := w.w.Flush(); err != nil {
		return err
	}
	return w.f.Close()
}

// Result is the verdict of replaying one behaviour / scenario into the real code.
type Result struct {
	ID       int    `json:"id"`
	Status   string `json:"status"`             // ok | violation | drift | skip
	Sig      string `json:"sig,omitempty"`      // causal signature of a violation
	Detail   string `json:"detail,omitempty"`   // human readable
	Variant  string `json:"variant,omitempty"`  // which concrete materialisation
	Scenario any    `json:"scenario,omitempty"` // self-contained scenario (violations only)
	Nontriv  bool   `json:"nontrivial,omitempty"`
}

var kinds = []struct {
	name string
	err  error
}{
	{"cancelled", commonerrors.ErrCancelled}, {"timeout", commonerrors.ErrTimeout},
	{"notimplemented", commonerrors.ErrNotImplemented}, {"noextension", commonerrors.ErrNoExtension},
	{"nologger", commonerrors.ErrNoLogger}, {"nologgersource", commonerrors.ErrNoLoggerSource},
	{"nologsource", commonerrors.ErrNoLogSource}, {"undefined", commonerrors.ErrUndefined},
	{"invaliddestination", commonerrors.ErrInvalidDestination}, {"locked", commonerrors.ErrLocked},
	{"stalelock", commonerrors.ErrStaleLock}, {"exists", commonerrors.ErrExists}, {"notfound", commonerrors.ErrNotFound},
	{"unsupported", commonerrors.ErrUnsupported}, {"unavailable", commonerrors.ErrUnavailable},
	{"wronguser", commonerrors.ErrWrongUser}, {"unauthorised", commonerrors.ErrUnauthorised},
	{"unknown", commonerrors.ErrUnknown}, {"invalid", commonerrors.ErrInvalid}, {"conflict", commonerrors.ErrConflict},
	{"marshalling", commonerrors.ErrMarshalling}, {"empty", commonerrors.ErrEmpty}, {"unexpected", commonerrors.ErrUnexpected},
	{"toolarge", commonerrors.ErrTooLarge}, {"forbidden", commonerrors.ErrForbidden}, {"condition", commonerrors.ErrCondition},
	{"eof", commonerrors.ErrEOF}, {"malicious", commonerrors.ErrMalicious}, {"outofrange", commonerrors.ErrOutOfRange},
	{"warning", commonerrors.ErrWarning},
}

// KindNames lists the names used by Kind, in declaration order.
func KindNames() []string {
	out := make([]string, len(kinds))
	for i, k := range kinds {
		out[i] = k.name
	}
	return out
}

// KindError returns the sentinel error of a kind name (nil if unknown).
func KindError(name string) error {
	for _, k := range kinds {
		if k.name == name {
			return k.err
		}
	}
	return nil
}

// Kind projects an error to the name of its commonerrors kind ("" for nil, "other" for anything else).
func Kind(err error) string {
	if err == nil {
		return ""
	}
	for _, k := range kinds {
		if commonerrors.Any(err, k.err) {
			return k.name
		}
	}
	return "other"
}
