// Package fsgate wraps an afero.Fs so that the conformance harness owns the only boundary through
// which the library touches shared state: every backend call is attributed to a logical owner,
// recorded, optionally *gated* (blocked until the replay controller releases it), optionally made to
// fail / stop for ever, and Stat results can have their age faked.
package fsgate

import (
	"errors"
	"os"
	"path/filepath"
	"runtime"
	"strings"
	"sync"
	"sync/atomic"
	"time"

	"github.com/spf13/afero"
)

// Event is one backend call, recorded after it returned.
type Event struct {
	Seq       int64    `json:"seq"`
	Owner     string   `json:"owner"` // logical process, suffixed ".hb" for heartbeat goroutines
	Op        string   `json:"op"`    // Mkdir, Remove, Stat, Open, OpenFile, Chtimes, Rename, File.Write, File.Close ...
	Path      string   `json:"path"`
	Path2     string   `json:"path2,omitempty"`
	Flags     int      `json:"flags,omitempty"`
	N         int      `json:"n,omitempty"` // bytes / entries for file-level calls
	OK        bool     `json:"ok"`
	Err       string   `json:"err,omitempty"`
	Mut       bool     `json:"mut"`                 // mutating call
	Labels    []string `json:"labels"`              // library API functions found on the caller's stack, innermost first
	Handles   int      `json:"handles"`             // open file handles of this wrapper after the call
	AfterDone bool     `json:"afterDone,omitempty"` // issued after the watched context was done
	At        int64    `json:"at,omitempty"`        // completion instant, ns since the gate was created (monotonic)
	MTime     int64    `json:"mtime,omitempty"`     // Chtimes: the modification time that was set, ns since the gate was created
}

// Action tells a parked call what to do when released.
type Action int

const (
	Proceed Action = iota
	Fail           // return ErrInjected without touching the backend
	Crash          // never return (the owner "process" stops here for ever)
)

var ErrInjected = errors.New("injected backend failure")

// Call is a backend call parked at the gate.
type Call struct {
	Key     string
	Ev      Event
	release chan Action
	done    chan struct{}
}

// Gate is shared by all wrappers of one scenario.
type Gate struct {
	mu          sync.Mutex
	cond        *sync.Cond
	seq         atomic.Int64
	parked      map[string][]*Call
	finished    map[string]int // API calls finished per key (bumped by the harness)
	log         []Event
	gating      map[string]bool // owner -> calls are parked
	GateFileOps bool
	stale       map[string]bool // paths whose Stat must look old
	FreezeAges  bool            // every path not marked stale looks modified "now" (model time replaces real time)
	labelFns    []string
	hbMarker    string
	stopped     bool
	Done        func() bool  // optional: reports whether the watched context is done (for AfterDone)
	OnEvent     func(*Event) // optional: called (under no lock) after each recorded event
	crashCh     chan struct{}
	T0          time.Time
	counts      map[string]int   // backend calls entered per owner key
	faults      map[string]Fault // owner key -> fault to inject
	dead        map[string]bool  // owner keys that crashed: every further call stops for ever
	failNext    []FailWhen       // one-shot faults chosen by what the call is rather than by its number
}

// FailWhen: the next backend call of owner key Key whose operation is Op (and whose path ends in Suffix) fails once with ErrInjected,
// not before NotBefore calls of that key have been made.
type FailWhen struct {
	Key, Op, Suffix string
	NotBefore       int
}

// ClearFailNext forgets every planned one-shot fault that has not fired yet.
func (g *Gate) ClearFailNext() {
	g.mu.Lock()
	g.failNext = nil
	g.mu.Unlock()
}

// FailNext plans a one-shot injected error chosen by the kind of call.
func (g *Gate) FailNext(f FailWhen) {
	g.mu.Lock()
	g.failNext = append(g.failNext, f)
	g.mu.Unlock()
}

// Fault: at the At-th backend call (1-based, file-level calls included) of an owner, do Action instead.
type Fault struct {
	At     int
	Action Action
}

// SetFault plans a fault for an owner key; Count reports how many backend calls the key has entered.
func (g *Gate) SetFault(key string, f Fault) {
	g.mu.Lock()
	g.faults[key] = f
	g.mu.Unlock()
}

// Kill makes every further backend call of owner (and of its heartbeat goroutines) stop for ever.
func (g *Gate) Kill(owner string) {
	g.mu.Lock()
	g.dead[owner] = true
	g.dead[owner+".hb"] = true
	g.mu.Unlock()
}

// IsDead reports whether owner crashed (a planned Crash fault fired or Kill was called).
func (g *Gate) IsDead(owner string) bool {
	g.mu.Lock()
	defer g.mu.Unlock()
	return g.dead[owner]
}

func (g *Gate) Count(key string) int {
	g.mu.Lock()
	defer g.mu.Unlock()
	return g.counts[key]
}

// NewGate creates a gate. labelFns are substrings of function names looked for on the stack of each
// call (innermost first in Event.Labels); hbMarker identifies heartbeat goroutines.
func NewGate(labelFns []string, hbMarker string) *Gate {
	g := &Gate{parked: map[string][]*Call{}, finished: map[string]int{}, gating: map[string]bool{}, stale: map[string]bool{},
		labelFns: labelFns, hbMarker: hbMarker, crashCh: make(chan struct{}), T0: time.Now(), counts: map[string]int{}, faults: map[string]Fault{}, dead: map[string]bool{}}
	g.cond = sync.NewCond(&g.mu)
	return g
}

// SetGating turns parking on/off for an owner key ("A", "A.hb").
func (g *Gate) SetGating(key string, on bool) {
	g.mu.Lock()
	g.gating[key] = on
	g.mu.Unlock()
	g.cond.Broadcast()
}

// Shutdown releases everything parked (Proceed) and disables gating; crashed calls stay blocked.
func (g *Gate) Shutdown() {
	g.mu.Lock()
	if !g.stopped {
		close(g.crashCh)
	}
	g.stopped = true
	var all []*Call
	for k, cs := range g.parked {
		all = append(all, cs...)
		delete(g.parked, k)
	}
	g.mu.Unlock()
	for _, c := range all {
		select {
		case c.release <- Proceed:
		default:
		}
	}
	g.cond.Broadcast()
}

// MarkStale makes Stat/Lstat of path report a modification time 10 s in the past until the path is refreshed.
func (g *Gate) MarkStale(path string, stale bool) {
	g.mu.Lock()
	if stale {
		g.stale[filepath.Clean(path)] = true
	} else {
		delete(g.stale, filepath.Clean(path))
	}
	g.mu.Unlock()
}

func (g *Gate) refreshed(path string) {
	g.mu.Lock()
	delete(g.stale, filepath.Clean(path))
	g.mu.Unlock()
}

func (g *Gate) isStale(path string) bool {
	g.mu.Lock()
	defer g.mu.Unlock()
	return g.stale[filepath.Clean(path)]
}

// Finished is called by the harness when an API call of key returned.
func (g *Gate) Finished(key string) {
	g.mu.Lock()
	g.finished[key]++
	g.mu.Unlock()
	g.cond.Broadcast()
}

func (g *Gate) FinishedCount(key string) int {
	g.mu.Lock()
	defer g.mu.Unlock()
	return g.finished[key]
}

// WaitParked waits until a call of key is parked (returned) or the number of finished API calls of
// key exceeds finishedBefore (nil, true) or the timeout elapses (nil, false).
func (g *Gate) WaitParked(key string, finishedBefore int, timeout time.Duration) (c *Call, apiDone bool) {
	deadline := time.Now().Add(timeout)
	timer := time.AfterFunc(timeout, func() { g.cond.Broadcast() })
	defer timer.Stop()
	g.mu.Lock()
	defer g.mu.Unlock()
	for {
		if cs := g.parked[key]; len(cs) > 0 {
			return cs[0], false
		}
		if g.finished[key] > finishedBefore {
			return nil, true
		}
		if time.Now().After(deadline) {
			return nil, false
		}
		g.cond.Wait()
	}
}

// Peek returns the parked call of key, if any.
func (g *Gate) Peek(key string) *Call {
	g.mu.Lock()
	defer g.mu.Unlock()
	if cs := g.parked[key]; len(cs) > 0 {
		return cs[0]
	}
	return nil
}

// Release lets a parked call run with the given action and waits until it has completed (Proceed/Fail).
func (g *Gate) Release(c *Call, a Action) {
	g.mu.Lock()
	cs := g.parked[c.Key]
	for i, x := range cs {
		if x == c {
			g.parked[c.Key] = append(cs[:i:i], cs[i+1:]...)
			break
		}
	}
	g.mu.Unlock()
	c.release <- a
	<-c.done
}

// Log returns a copy of the events recorded so far.
func (g *Gate) Log() []Event {
	g.mu.Lock()
	defer g.mu.Unlock()
	return append([]Event(nil), g.log...)
}

func (g *Gate) LogLen() int {
	g.mu.Lock()
	defer g.mu.Unlock()
	return len(g.log)
}

func (g *Gate) labels() (labels []string, hb bool) {
	pcs := make([]uintptr, 64)
	n := runtime.Callers(3, pcs)
	frames := runtime.CallersFrames(pcs[:n])
	for {
		f, more := frames.Next()
		name := f.Function
		if g.hbMarker != "" && (strings.HasSuffix(name, g.hbMarker) || strings.Contains(name, g.hbMarker+".")) {
			hb = true
		}
		for _, pat := range g.labelFns {
			if strings.HasSuffix(name, pat) || strings.Contains(name, pat+".") || strings.Contains(name, pat+"-") || strings.Contains(name, pat+"[") {
				l := strings.TrimPrefix(pat, ").")
				if len(labels) == 0 || labels[len(labels)-1] != l {
					labels = append(labels, l)
				}
			}
		}
		if !more {
			break
		}
	}
	if labels == nil {
		labels = []string{}
	}
	return
}

// enter is called at the start of every backend call; it parks the call when gating is on.
// finisher completes a call exactly once; Ensure (deferred by every wrapper method) completes it when
// the backend panicked, so that the controller never waits for a call that will not return.
type finisher struct {
	once  sync.Once
	f     func(err error, n int, handles int)
	mtime int64 // Chtimes: the time stamp being set (ns since the gate was created)
}

func (d *finisher) Finish(err error, n int, handles int) { d.once.Do(func() { d.f(err, n, handles) }) }
func (d *finisher) Ensure() {
	d.once.Do(func() { d.f(errors.New("backend panicked"), 0, 0) })
}

func (g *Gate) enter(owner, op, path string, mut bool, fileOp bool) (ev Event, act Action, fin *finisher) {
	labels, hb := g.labels()
	key := owner
	if hb {
		key = owner + ".hb"
	}
	ev = Event{Owner: key, Op: op, Path: path, Mut: mut, Labels: labels}
	act = Proceed
	var c *Call
	g.mu.Lock()
	g.counts[key]++
	if f, ok := g.faults[key]; ok && f.At == g.counts[key] && !g.stopped {
		act = f.Action
		if act == Crash { // the whole logical process dies: its heartbeat goroutines too
			g.dead[owner] = true
			g.dead[owner+".hb"] = true
		}
	}
	for i, f := range g.failNext {
		if f.Key == key && f.Op == op && strings.HasSuffix(path, f.Suffix) && g.counts[key] >= f.NotBefore && !g.stopped && act == Proceed {
			act = Fail
			g.failNext = append(g.failNext[:i], g.failNext[i+1:]...)
			break
		}
	}
	if g.dead[key] && !g.stopped {
		act = Crash
	}
	gate := g.gating[key] && !g.stopped && (!fileOp || g.GateFileOps)
	if gate {
		c = &Call{Key: key, Ev: ev, release: make(chan Action, 1), done: make(chan struct{})}
		g.parked[key] = append(g.parked[key], c)
	}
	g.mu.Unlock()
	if c != nil {
		g.cond.Broadcast()
		act = <-c.release
	}
	if act == Crash {
		g.mu.Lock()
		ev.Err = "crashed"
		ev.Seq = g.seq.Add(1)
		ev.At = int64(time.Since(g.T0))
		g.log = append(g.log, ev)
		g.mu.Unlock()
		if c != nil {
			close(c.done)
			c = nil
		}
		<-g.crashCh // closed only at Shutdown: the owner stops here for the rest of the scenario
		act = Fail
	}
	fin = &finisher{}
	done := func(err error, n int, handles int) {
		ev.MTime = fin.mtime
		ev.OK = err == nil
		if err != nil {
			ev.Err = err.Error()
		}
		ev.N = n
		ev.Handles = handles
		if g.Done != nil && g.Done() {
			ev.AfterDone = true
		}
		g.mu.Lock()
		ev.Seq = g.seq.Add(1)
		ev.At = int64(time.Since(g.T0))
		g.log = append(g.log, ev)
		g.mu.Unlock()
		if g.OnEvent != nil {
			g.OnEvent(&ev)
		}
		if c != nil {
			close(c.done)
		}
	}
	fin.f = done
	return
}

// ---------------------------------------------------------------------------------------------

// Fs is the gated, recording wrapper; one per logical owner, all over the same base filesystem.
type Fs struct {
	Base    afero.Fs
	Owner   string
	G       *Gate
	handles atomic.Int64
	open    sync.Map // *File -> name and labels of the call that opened it
}

// OpenNames lists the files opened through this wrapper and not closed yet (with the API labels of the opening call).
func (f *Fs) OpenNames() []string {
	var out []string
	f.open.Range(func(k, v any) bool { out = append(out, v.(string)); return true })
	return out
}

func New(base afero.Fs, owner string, g *Gate) *Fs { return &Fs{Base: base, Owner: owner, G: g} }

// OpenHandles is the balance of files opened and not yet closed through this wrapper.
func (f *Fs) OpenHandles() int { return int(f.handles.Load()) }

func (f *Fs) Name() string { return "fsgate(" + f.Base.Name() + ")" }

func (f *Fs) wrapFile(file afero.File, err error, name string) (afero.File, error) {
	if err != nil || file == nil {
		return file, err
	}
	f.handles.Add(1)
	w := &File{File: file, fs: f, name: name}
	pcs := make([]uintptr, 24)
	n := runtime.Callers(3, pcs)
	frames := runtime.CallersFrames(pcs[:n])
	where := ""
	for i := 0; i < 10; i++ {
		fr, more := frames.Next()
		if i >= 1 {
			where += " <- " + fr.Function[strings.LastIndex(fr.Function, "/")+1:]
		}
		if !more {
			break
		}
	}
	f.open.Store(w, name+where)
	return w, nil
}

func (f *Fs) Create(name string) (afero.File, error) {
	_, act, done := f.G.enter(f.Owner, "Create", name, true, false)
	defer done.Ensure()
	if act == Fail {
		done.Finish(ErrInjected, 0, f.OpenHandles())
		return nil, ErrInjected
	}
	file, err := f.Base.Create(name)
	if err == nil {
		f.G.refreshed(name)
	}
	file, err = f.wrapFile(file, err, name)
	done.Finish(err, 0, f.OpenHandles())
	return file, err
}

func (f *Fs) Mkdir(name string, perm os.FileMode) error {
	_, act, done := f.G.enter(f.Owner, "Mkdir", name, true, false)
	defer done.Ensure()
	if act == Fail {
		done.Finish(ErrInjected, 0, f.OpenHandles())
		return ErrInjected
	}
	err := f.Base.Mkdir(name, perm)
	if err == nil {
		f.G.refreshed(name)
	}
	done.Finish(err, 0, f.OpenHandles())
	return err
}

func (f *Fs) MkdirAll(path string, perm os.FileMode) error {
	_, act, done := f.G.enter(f.Owner, "MkdirAll", path, true, false)
	defer done.Ensure()
	if act == Fail {
		done.Finish(ErrInjected, 0, f.OpenHandles())
		return ErrInjected
	}
	err := f.Base.MkdirAll(path, perm)
	done.Finish(err, 0, f.OpenHandles())
	return err
}

func (f *Fs) Open(name string) (afero.File, error) {
	_, act, done := f.G.enter(f.Owner, "Open", name, false, false)
	defer done.Ensure()
	if act == Fail {
		done.Finish(ErrInjected, 0, f.OpenHandles())
		return nil, ErrInjected
	}
	file, err := f.Base.Open(name)
	file, err = f.wrapFile(file, err, name)
	done.Finish(err, 0, f.OpenHandles())
	return file, err
}

func (f *Fs) OpenFile(name string, flag int, perm os.FileMode) (afero.File, error) {
	mut := flag&(os.O_WRONLY|os.O_RDWR|os.O_CREATE|os.O_TRUNC|os.O_APPEND) != 0
	ev, act, done := f.G.enter(f.Owner, "OpenFile", name, mut, false)
	defer done.Ensure()
	_ = ev
	if act == Fail {
		done.Finish(ErrInjected, 0, f.OpenHandles())
		return nil, ErrInjected
	}
	file, err := f.Base.OpenFile(name, flag, perm)
	if err == nil && mut {
		f.G.refreshed(name)
	}
	file, err = f.wrapFile(file, err, name)
	done.Finish(err, flag, f.OpenHandles())
	return file, err
}

func (f *Fs) Remove(name string) error {
	_, act, done := f.G.enter(f.Owner, "Remove", name, true, false)
	defer done.Ensure()
	if act == Fail {
		done.Finish(ErrInjected, 0, f.OpenHandles())
		return ErrInjected
	}
	err := f.Base.Remove(name)
	done.Finish(err, 0, f.OpenHandles())
	return err
}

func (f *Fs) RemoveAll(path string) error {
	_, act, done := f.G.enter(f.Owner, "RemoveAll", path, true, false)
	defer done.Ensure()
	if act == Fail {
		done.Finish(ErrInjected, 0, f.OpenHandles())
		return ErrInjected
	}
	err := f.Base.RemoveAll(path)
	done.Finish(err, 0, f.OpenHandles())
	return err
}

func (f *Fs) Rename(oldname, newname string) error {
	ev, act, done := f.G.enter(f.Owner, "Rename", oldname, true, false)
	defer done.Ensure()
	_ = ev
	if act == Fail {
		done.Finish(ErrInjected, 0, f.OpenHandles())
		return ErrInjected
	}
	err := f.Base.Rename(oldname, newname)
	f.G.mu.Lock()
	// record the destination on the event that done() is about to append
	f.G.mu.Unlock()
	doneWithPath2(f.G, done, err, newname, f.OpenHandles())
	return err
}

func doneWithPath2(g *Gate, done *finisher, err error, path2 string, handles int) {
	done.Finish(err, 0, handles)
	g.mu.Lock()
	if n := len(g.log); n > 0 {
		g.log[n-1].Path2 = path2
	}
	g.mu.Unlock()
}

type agedInfo struct {
	os.FileInfo
	mod time.Time
}

func (a agedInfo) ModTime() time.Time { return a.mod }
func (a agedInfo) Sys() interface{}   { return nil }

func (f *Fs) Stat(name string) (os.FileInfo, error) {
	_, act, done := f.G.enter(f.Owner, "Stat", name, false, false)
	defer done.Ensure()
	if act == Fail {
		done.Finish(ErrInjected, 0, f.OpenHandles())
		return nil, ErrInjected
	}
	fi, err := f.Base.Stat(name)
	aged := 0
	if err == nil && f.G.isStale(name) {
		fi = agedInfo{FileInfo: fi, mod: time.Now().Add(-10 * time.Second)}
		aged = 1
	} else if err == nil && f.G.FreezeAges {
		fi = agedInfo{FileInfo: fi, mod: time.Now()}
	}
	done.Finish(err, aged, f.OpenHandles())
	return fi, err
}

func (f *Fs) Chmod(name string, mode os.FileMode) error {
	_, act, done := f.G.enter(f.Owner, "Chmod", name, true, false)
	defer done.Ensure()
	if act == Fail {
		done.Finish(ErrInjected, 0, f.OpenHandles())
		return ErrInjected
	}
	err := f.Base.Chmod(name, mode)
	done.Finish(err, 0, f.OpenHandles())
	return err
}

func (f *Fs) Chown(name string, uid, gid int) error {
	_, act, done := f.G.enter(f.Owner, "Chown", name, true, false)
	defer done.Ensure()
	if act == Fail {
		done.Finish(ErrInjected, 0, f.OpenHandles())
		return ErrInjected
	}
	err := f.Base.Chown(name, uid, gid)
	done.Finish(err, 0, f.OpenHandles())
	return err
}

func (f *Fs) Chtimes(name string, atime time.Time, mtime time.Time) error {
	_, act, done := f.G.enter(f.Owner, "Chtimes", name, true, false)
	defer done.Ensure()
	if act == Fail {
		done.Finish(ErrInjected, 0, f.OpenHandles())
		return ErrInjected
	}
	done.mtime = int64(mtime.Sub(f.G.T0))
	err := f.Base.Chtimes(name, atime, mtime)
	if err == nil {
		f.G.refreshed(name)
	}
	done.Finish(err, 0, f.OpenHandles())
	return err
}

// optional afero interfaces (links)

func (f *Fs) LstatIfPossible(name string) (os.FileInfo, bool, error) {
	_, act, done := f.G.enter(f.Owner, "Lstat", name, false, false)
	defer done.Ensure()
	if act == Fail {
		done.Finish(ErrInjected, 0, f.OpenHandles())
		return nil, false, ErrInjected
	}
	if l, ok := f.Base.(afero.Lstater); ok {
		fi, b, err := l.LstatIfPossible(name)
		if err == nil && f.G.isStale(name) {
			fi = agedInfo{FileInfo: fi, mod: time.Now().Add(-10 * time.Second)}
		}
		done.Finish(err, 0, f.OpenHandles())
		return fi, b, err
	}
	fi, err := f.Base.Stat(name)
	done.Finish(err, 0, f.OpenHandles())
	return fi, false, err
}

func (f *Fs) SymlinkIfPossible(oldname, newname string) error {
	_, act, done := f.G.enter(f.Owner, "Symlink", newname, true, false)
	defer done.Ensure()
	if act == Fail {
		done.Finish(ErrInjected, 0, f.OpenHandles())
		return ErrInjected
	}
	var err error
	if l, ok := f.Base.(afero.Linker); ok {
		err = l.SymlinkIfPossible(oldname, newname)
	} else {
		err = &os.LinkError{Op: "symlink", Old: oldname, New: newname, Err: afero.ErrNoSymlink}
	}
	done.Finish(err, 0, f.OpenHandles())
	return err
}

func (f *Fs) ReadlinkIfPossible(name string) (string, error) {
	_, act, done := f.G.enter(f.Owner, "Readlink", name, false, false)
	defer done.Ensure()
	if act == Fail {
		done.Finish(ErrInjected, 0, f.OpenHandles())
		return "", ErrInjected
	}
	var s string
	var err error
	if l, ok := f.Base.(afero.LinkReader); ok {
		s, err = l.ReadlinkIfPossible(name)
	} else {
		err = &os.PathError{Op: "readlink", Path: name, Err: afero.ErrNoReadlink}
	}
	done.Finish(err, 0, f.OpenHandles())
	return s, err
}

// ---------------------------------------------------------------------------------------------

// File records file-level calls and keeps the handle balance.
type File struct {
	afero.File
	fs     *Fs
	name   string
	closed atomic.Bool
	// ShortWriteAt, when > 0, makes the Write that would cross this many bytes short and failing.
	written int64
}

func (f *File) Close() error {
	_, act, done := f.fs.G.enter(f.fs.Owner, "File.Close", f.name, false, true)
	defer done.Ensure()
	if act == Fail {
		done.Finish(ErrInjected, 0, f.fs.OpenHandles())
		return ErrInjected
	}
	err := f.File.Close()
	if f.closed.CompareAndSwap(false, true) {
		f.fs.handles.Add(-1)
		f.fs.open.Delete(f)
	}
	done.Finish(err, 0, f.fs.OpenHandles())
	return err
}

func (f *File) Read(p []byte) (int, error) {
	_, act, done := f.fs.G.enter(f.fs.Owner, "File.Read", f.name, false, true)
	defer done.Ensure()
	if act == Fail {
		done.Finish(ErrInjected, 0, f.fs.OpenHandles())
		return 0, ErrInjected
	}
	n, err := f.File.Read(p)
	done.Finish(err, n, f.fs.OpenHandles())
	return n, err
}

func (f *File) ReadAt(p []byte, off int64) (int, error) {
	_, act, done := f.fs.G.enter(f.fs.Owner, "File.ReadAt", f.name, false, true)
	defer done.Ensure()
	if act == Fail {
		done.Finish(ErrInjected, 0, f.fs.OpenHandles())
		return 0, ErrInjected
	}
	n, err := f.File.ReadAt(p, off)
	done.Finish(err, n, f.fs.OpenHandles())
	return n, err
}

func (f *File) Write(p []byte) (int, error) {
	_, act, done := f.fs.G.enter(f.fs.Owner, "File.Write", f.name, true, true)
	defer done.Ensure()
	if act == Fail {
		// a short write followed by an error: half of the buffer reaches the backend
		n, _ := f.File.Write(p[:len(p)/2])
		done.Finish(ErrInjected, n, f.fs.OpenHandles())
		return n, ErrInjected
	}
	n, err := f.File.Write(p)
	f.written += int64(n)
	if n > 0 {
		f.fs.G.refreshed(f.name)
	}
	done.Finish(err, n, f.fs.OpenHandles())
	return n, err
}

func (f *File) WriteString(s string) (int, error) { return f.Write([]byte(s)) }

func (f *File) WriteAt(p []byte, off int64) (int, error) {
	_, act, done := f.fs.G.enter(f.fs.Owner, "File.WriteAt", f.name, true, true)
	defer done.Ensure()
	if act == Fail {
		done.Finish(ErrInjected, 0, f.fs.OpenHandles())
		return 0, ErrInjected
	}
	n, err := f.File.WriteAt(p, off)
	done.Finish(err, n, f.fs.OpenHandles())
	return n, err
}

func (f *File) Readdir(count int) ([]os.FileInfo, error) {
	_, act, done := f.fs.G.enter(f.fs.Owner, "File.Readdir", f.name, false, true)
	defer done.Ensure()
	if act == Fail {
		done.Finish(ErrInjected, 0, f.fs.OpenHandles())
		return nil, ErrInjected
	}
	fis, err := f.File.Readdir(count)
	done.Finish(err, len(fis), f.fs.OpenHandles())
	return fis, err
}

func (f *File) Readdirnames(n int) ([]string, error) {
	_, act, done := f.fs.G.enter(f.fs.Owner, "File.Readdirnames", f.name, false, true)
	defer done.Ensure()
	if act == Fail {
		done.Finish(ErrInjected, 0, f.fs.OpenHandles())
		return nil, ErrInjected
	}
	names, err := f.File.Readdirnames(n)
	done.Finish(err, len(names), f.fs.OpenHandles())
	return names, err
}

func (f *File) Truncate(size int64) error {
	_, act, done := f.fs.G.enter(f.fs.Owner, "File.Truncate", f.name, true, true)
	defer done.Ensure()
	if act == Fail {
		done.Finish(ErrInjected, 0, f.fs.OpenHandles())
		return ErrInjected
	}
	err := f.File.Truncate(size)
	done.Finish(err, 0, f.fs.OpenHandles())
	return err
}

func (f *File) Stat() (os.FileInfo, error) {
	fi, err := f.File.Stat()
	if err == nil && f.fs.G.isStale(f.name) {
		fi = agedInfo{FileInfo: fi, mod: time.Now().Add(-10 * time.Second)}
	}
	return fi, err
}

// Fd lets the wrapper satisfy filesystem.File when the base file has a descriptor.
func (f *File) Fd() uintptr {
	if x, ok := f.File.(interface{ Fd() uintptr }); ok {
		return x.Fd()
	}
	return ^uintptr(0)
}
