// Package sandbox materialises abstract trees on a backend and takes Lstat-based snapshots of a whole
// sandbox directory (paths, kinds, link targets, content hashes) directly on the backend.
package sandbox

import (
	"crypto/sha256"
	"encoding/hex"
	"os"
	"path/filepath"
	"sort"

	"github.com/spf13/afero"
)

// Entry describes one filesystem entry.
type Entry struct {
	Kind   string `json:"kind"` // dir | file | link
	Target string `json:"target,omitempty"`
	Hash   string `json:"hash,omitempty"`
	Size   int64  `json:"size,omitempty"`
	Mode   uint32 `json:"mode,omitempty"`
}

// Snapshot maps slash-separated paths relative to root to entries; links are never followed.
type Snapshot map[string]Entry

func lstat(fs afero.Fs, p string) (os.FileInfo, error) {
	if l, ok := fs.(afero.Lstater); ok {
		fi, _, err := l.LstatIfPossible(p)
		return fi, err
	}
	return fs.Stat(p)
}

// Take walks root on fs without following symbolic links.
func Take(fs afero.Fs, root string) Snapshot {
	s := Snapshot{}
	var walk func(p string)
	walk = func(p string) {
		fi, err := lstat(fs, p)
		if err != nil {
			return
		}
		rel, _ := filepath.Rel(root, p)
		rel = filepath.ToSlash(rel)
		switch {
		case fi.Mode()&os.ModeSymlink != 0:
			e := Entry{Kind: "link"}
			if lr, ok := fs.(afero.LinkReader); ok {
				e.Target, _ = lr.ReadlinkIfPossible(p)
			}
			s[rel] = e
		case fi.IsDir():
			s[rel] = Entry{Kind: "dir", Mode: uint32(fi.Mode().Perm())}
			d, err := fs.Open(p)
			if err != nil {
				return
			}
			names, _ := d.Readdirnames(-1)
			_ = d.Close()
			sort.Strings(names)
			for _, n := range names {
				walk(filepath.Join(p, n))
			}
		default:
			b, _ := afero.ReadFile(fs, p)
			h := sha256.Sum256(b)
			s[rel] = Entry{Kind: "file", Hash: hex.EncodeToString(h[:8]), Size: int64(len(b)), Mode: uint32(fi.Mode().Perm())}
		}
	}
	walk(root)
	return s
}

// Diff lists the paths under prefix (slash form, "" = everything) that differ between two snapshots.
func Diff(a, b Snapshot, under string) []string {
	var out []string
	in := func(p string) bool {
		return under == "" || p == under || (len(p) > len(under) && p[:len(under)+1] == under+"/")
	}
	for p, e := range a {
		if in(p) {
			if f, ok := b[p]; !ok || f != e {
				out = append(out, p)
			}
		}
	}
	for p := range b {
		if in(p) {
			if _, ok := a[p]; !ok {
				out = append(out, p)
			}
		}
	}
	sort.Strings(out)
	return out
}

// Paths lists the paths of a snapshot under prefix.
func (s Snapshot) Paths(under string) []string {
	var out []string
	for p := range s {
		if under == "" || p == under || (len(p) > len(under) && p[:len(under)+1] == under+"/") {
			out = append(out, p)
		}
	}
	sort.Strings(out)
	return out
}
